"""R-mode (bounded) suites over call / mutation sequences on real overloaded functions:

  c04  every call's outcome equals its outcome as the first call on a fresh function (caching invisible)
  c05  after register / re-register / unregister sequences, every call equals a fresh function over the resulting set
  c20  after a warm-up, repeated calls consult no user class predicate / order hook / subtype hook

usage: seq_suite.py <c04|c05|c20>   -> JSON line; exit 1 if any failing clause
"""
import itertools
import json
import sys

from ovld import Dependent, Ovld, call_next, class_check, recurse
from ovld.dependent import dependent_check


class A: ...
class B(A): ...
class C(A): ...
class D(B, C): ...
class E: ...


def outcome(fn, *args):
    try:
        return ("ok", repr(fn(*args)))
    except TypeError as e:
        s = str(e)
        return ("ambiguous",) if __import__("_errs").amb(s) else ("nomethod",) if __import__("_errs").nomethod(s) else ("typeerror", s.split("() ", 1)[-1][:80])
    except Exception as e:
        return ("error", type(e).__name__, str(e)[:80])


# ---- method-set factories: each returns (ovld, list of probe argument tuples) -------------------------------


def set_diamond():
    o = Ovld(name="dia")

    def f(x: A):
        return ["A"]

    def f2(x: B):
        return ["B"] + call_next(x)

    def f3(x: C):
        return ["C"] + call_next(x)

    def f4(x: object):
        return ["obj"]

    for g in (f, f2, f3, f4):
        o.register(g)
    return o, [(A(),), (B(),), (C(),), (D(),), (E(),), (1,)]


def set_dependent():
    o = Ovld(name="dep")

    def positive(x: int):
        return x > 0

    def f(x: Dependent[int, positive]):
        return "pos"

    def f2(x: int):
        return "int"

    def f3(x: bool):
        return "bool"

    def f4(x: float):
        return "float"

    def f5(x: object):
        return "obj"

    for g in (f, f2, f3, f4, f5):
        o.register(g)
    return o, [(5,), (-1,), (True,), (False,), (1.5,), ("s",)]


def set_wrap():
    o = Ovld(name="wrap")

    def f(x: bool):
        return ["wrap", call_next(int(x))] if x else ["wrap0", call_next(x)]

    def f2(x: int):
        return ["int", x]

    def f3(x: object):
        return ["obj"]

    for g in (f, f2, f3):
        o.register(g)
    return o, [(True,), (False,), (7,), ("s",)]


def set_two():
    o = Ovld(name="two")

    def f(x: A, y: A):
        return "AA"

    def f2(x: B, y: object):
        return "Bo"

    def f3(x: object, y: B):
        return "oB"

    def f4(x: int, y: int):
        return ["ii", recurse(A(), A())]

    for g in (f, f2, f3, f4):
        o.register(g)
    return o, [(A(), A()), (B(), A()), (B(), B()), (A(), B()), (1, 2), (E(), E())]


def set_virtual():
    """abstract classes / protocols accept a subclass without accepting its base (registered and structural)."""
    import abc
    import typing

    class Animal: ...

    class Bird(Animal):
        def fly(self): ...

    class Fish(Animal): ...

    class Swimmer(abc.ABC): ...

    Swimmer.register(Fish)

    @typing.runtime_checkable
    class Flyer(typing.Protocol):
        def fly(self): ...

    o = Ovld(name="virt")

    def f(x: Flyer):
        return "flyer"

    def f2(x: Swimmer):
        return "swimmer"

    def f3(x: object):
        return "obj"

    for g in (f, f2, f3):
        o.register(g)
    return o, [(Animal(),), (Bird(),), (Fish(),), (1,)]


def set_callable():
    """dependent types whose condition looks at the value's signature: functions sharing one code object."""
    import functools
    from typing import Callable

    def deco(fn):
        @functools.wraps(fn)
        def wrapper(*a, **k):
            return fn(*a, **k)

        return wrapper

    @deco
    def inc(x: int) -> int:
        return x + 1

    @deco
    def shout(x: str) -> str:
        return x.upper()

    def plain(x: int) -> int:
        return x

    o = Ovld(name="cb")

    def f(fn: Callable[[int], int]):
        return "int->int"

    def f2(fn: Callable[[str], str]):
        return "str->str"

    def f3(fn: object):
        return "obj"

    for g in (f, f2, f3):
        o.register(g)
    # process-wide state must not matter either: the documented answers, independent of what was dispatched before
    return o, [(inc,), (shout,), (plain,), (1,)], [("ok", "'int->int'"), ("ok", "'str->str'"), ("ok", "'int->int'"), ("ok", "'obj'")]


SETS = [set_diamond, set_dependent, set_wrap, set_two, set_virtual, set_callable]


def c04():
    failing, n = [], 0
    for mk in SETS:
        made = mk()
        probes, documented = made[1], (made[2] if len(made) > 2 else None)
        alone = []
        for p in probes:
            o, pr = mk()[:2]
            alone.append(outcome(o, *pr[probes.index(p)]))
        if documented is not None and alone != documented:
            failing.append(dict(set=mk.__name__, first_calls_on_fresh_functions=alone, documented=documented))
        seqs = list(itertools.permutations(range(len(probes)), 3)) + [(i, i, j) for i in range(len(probes)) for j in range(len(probes))]
        for seq in seqs:
            o, pr = mk()[:2]
            for k, i in enumerate(seq):
                n += 1
                got = outcome(o, *pr[i])
                if got != alone[i]:
                    failing.append(dict(set=mk.__name__, sequence=[repr(pr[j]) for j in seq[: k + 1]], got=got, first_call_on_fresh_function=alone[i]))
                    break
    return n, ([dict(name="outcome_independent_of_earlier_calls", n_violations=len(failing), violations=failing[:3])] if failing else [])


def c05():
    failing, n = [], 0

    def fa(x: A):
        return "A"

    def fb(x: B):
        return "B"

    def fc(x: C):
        return "C"

    def fd(x: D):
        return "D"

    def fa2(x: A):
        return "A2"

    def fint2(x: int, y: int = 0):
        return "int2"

    def fint(x: int):
        return "int"

    def fintb(x: int):
        return "intb"

    def fobj(x: object):
        return "obj"

    def fopt(x: int, y: int = 7):
        return ("opt", y)

    def freq(x: int, y: str):
        return ("req", y)

    def fkwopt(x: int, *, k: int = 3):
        return ("kwopt", k)

    def fkwreq(x: str, *, k: int):
        return ("kwreq", k)

    def ftint(x: type[int]):
        return "type[int]"

    def ftA(x: type[A]):
        return "type[A]"

    def frn_x(x: int):
        return "x-version"

    def frn_y(y: int):
        return "y-version"

    renamed_fail = []
    for order, gone, kwname_ok in ((("frn_x", "frn_y"), "frn_x", "y"), (("frn_y", "frn_x"), "frn_y", "x")):
        fr = dict(frn_x=frn_x, frn_y=frn_y)
        o = Ovld(name="rn")
        for nm in order:
            o.register(fr[nm])
        outcome(o, 1)
        o.unregister(fr[gone])
        fresh = Ovld(name="rn")
        fresh.register(fr[order[1]])
        for kw_ in (dict(x=1), dict(y=1)):
            n += 1
            a, b = outcome(lambda: o(**kw_)), outcome(lambda: fresh(**kw_))
            if a != b:
                renamed_fail.append(dict(registered=list(order), unregistered=gone, call=kw_, got=a, fresh_function=b))

    fns = dict(fa=fa, fb=fb, fc=fc, fd=fd, fa2=fa2, fint=fint, fint2=fint2, fintb=fintb, fobj=fobj, ftint=ftint, ftA=ftA, fopt=fopt, freq=freq, fkwopt=fkwopt, fkwreq=fkwreq)
    probes = [(A(),), (B(),), (C(),), (D(),), (1,), (int,), (bool,), (B,), (list[int],), (1, 2), (1, "s")]
    scripts = [
        ["+fa", "+fb", "+fc", "call", "+fd", "call"],
        ["+fa", "call", "+fa2", "call", "-fa2", "call"],
        ["+fa", "+fb", "call", "-fb", "call", "+fb", "call"],
        ["+fb", "+fc", "call", "-fc", "call"],
        ["+fa", "+fa2", "-fa", "call", "+fb", "call"],
        ["+fint", "call", "+fint2", "call", "-fint2", "call"],
        ["+fint", "+fintb", "-fintb", "+fint2", "call"],  # replace, unregister the replacement, add a different signature
        ["+fobj", "call", "+ftint", "call", "+ftA", "call", "-ftint", "call"],  # class-valued parameters arrive after first use
        ["+fobj", "+fa", "call", "+ftA", "call"],
        ["+freq", "+fopt", "call", "-fopt", "call"],  # a parameter becomes required again: the entry point must lose its default
        ["+fopt", "call", "+freq", "-fopt", "call", "+fopt", "call"],
        ["+fkwreq", "+fkwopt", "call", "-fkwopt", "call"],
    ]
    per_script = {}
    for si, script in enumerate(scripts):
        o = Ovld(name="m")
        present = []
        for step in script:
            if step[0] == "+":
                o.register(fns[step[1:]])
                present = [p for p in present if not (p == step[1:])] + [step[1:]]
            elif step[0] == "-":
                o.unregister(fns[step[1:]])
                present = [p for p in present if p != step[1:]]
            else:
                fresh = Ovld(name="m")
                # identical signatures: the later registration replaces (so only the survivor is in the resulting set)
                eff = []
                for p in present:
                    sig = {"fa": "A", "fa2": "A"}.get(p, p)
                    eff = [q for q in eff if {"fa": "A", "fa2": "A"}.get(q, q) != sig or True]
                    eff.append(p)
                for p in eff:
                    fresh.register(fns[p])
                for pr in probes:
                    n += 1
                    a, b = outcome(o, *pr), outcome(fresh, *pr)
                    if a != b:
                        per_script.setdefault(si, []).append(dict(script=script, upto=step, probe=repr(pr), got=a, fresh_function=b))
                for args_, kw_ in (((1,), dict(k=5)), (("s",), dict(k=5)), (("s",), {}), ((1,), dict(y=2)), ((1,), dict(x=1)) if False else ((1,), dict(k="no"))):
                    n += 1
                    a, b = outcome(lambda: o(*args_, **kw_)), outcome(lambda: fresh(*args_, **kw_))
                    if a != b:
                        per_script.setdefault(si, []).append(dict(script=script, upto=step, probe=repr((args_, kw_)), got=a, fresh_function=b))
    # linked children: a change on the parent reaches a linked child that is in use even if the parent never was
    for parent_used in (False, True):
        par = Ovld(name="par")
        par.register(fa)
        child = par.copy(linkback=True)
        child.register(fc)
        if parent_used:
            outcome(par, A())
        for pr in probes:
            outcome(child, *pr)
        par.register(fb)
        fresh = Ovld(name="par")
        for g in (fa, fb, fc):
            fresh.register(g)
        for pr in probes:
            n += 1
            a, b = outcome(child, *pr), outcome(fresh, *pr)
            if a != b:
                per_script.setdefault(100 + int(parent_used), []).append(dict(scenario="register on parent of a linked child in use", parent_used=parent_used, probe=repr(pr), got=a, fresh_function=b))
    out_ = [dict(name=f"equals_fresh_function_after_changes.script{si}", n_violations=len(v), violations=v[:3], inputs=sorted({__import__("_fp").fingerprint(x) for x in v})) for si, v in sorted(per_script.items())]
    if renamed_fail:
        out_.append(dict(name="equals_fresh_function_after_reregistration_under_another_parameter_name", n_violations=len(renamed_fail), violations=renamed_fail[:3]))
    return n, out_


def c20():
    failing, n = [], 0
    counter = {"n": 0}

    def starts_b(cls):
        counter["n"] += 1
        return cls.__name__.startswith("B")

    Bish = class_check(starts_b)

    class Hooked:
        @classmethod
        def __is_supertype__(cls, other):
            counter["n"] += 1
            return NotImplemented

    o = Ovld(name="hooks")

    def f(x: Bish):
        return ["bish"] + call_next(x)

    def f2(x: A):
        return ["A"]

    def f3(x: object):
        return ["obj"]

    def f4(x: int, y: Bish):
        return ["int,bish", recurse(y)]

    # a value-dependent type whose bound is a user class predicate (the bound must not be re-tested per call)
    @dependent_check
    def Heavy(value: Bish, threshold):
        return getattr(value, "w", 0) > threshold

    def f5(x: Heavy[10]):
        return ["heavy"]

    def f6(x: int, y: Heavy[10] | Heavy[100]):
        return ["int,heavy-union"]

    def f7(x: str, y: Heavy[10] & Heavy[5]):
        return ["str,heavy-inter"]

    def f8(x: float, y: Heavy[30], z: Bish):  # (Heavy[10] here would sit next to the union above: open finding F-mirror[Union,FuncDep])
        return ["float,heavy,bish"]

    def f9(x: float, y: object, z: object):
        return ["float,o,o"]

    for g in (f, f2, f3, f4, f5, f6, f7, f8, f9):
        o.register(g)

    class BW(B):
        w = 50

    probes = [(A(),), (B(),), (E(),), (1, B()), (1,), (BW(),), (1, BW()), ("s", BW()), (1.5, BW(), B()), (1.5, B(), B())]
    for p in probes:
        outcome(o, *p)
    import inspect

    try:
        sig = inspect.signature(o.dispatch)  # introspection is not a change of the method set
        list(sig.parameters)
        str(sig)
        str(o.dispatch.__doc__)
    except Exception:
        pass
    # the read-only diagnostics are not a change of the method set either
    import contextlib
    import io

    for diag in (lambda: o.display_methods(), lambda: o.display_resolution(B()), lambda: repr(o), lambda: o.resolve(B)):
        try:
            with contextlib.redirect_stdout(io.StringIO()):
                diag()
        except Exception:
            pass
    before = counter["n"]
    for _ in range(2):
        for p in probes:
            n += 1
            c0 = counter["n"]
            outcome(o, *p)
            if counter["n"] != c0:
                failing.append(dict(probe=repr(p), consultations=counter["n"] - c0))
    out = [dict(name="no_consultation_after_warm_up", n_violations=len(failing), violations=failing[:3])] if failing else []
    # a linked variant that was warmed up BEFORE its parent is first used: the parent's first call changes no method set,
    # so afterwards the variant must not consult anything again (and likewise a sibling variant, and the other way round)
    fam_fail = []
    for first in ("variant", "parent"):
        counter["n"] = 0
        par = Ovld(name="par")
        par.register(f)
        par.register(f2)
        par.register(f3)
        var = par.copy(linkback=True)

        def own(x: E):
            return ["E"]

        var.register(own)
        sib = par.copy(linkback=True)
        fam = {"parent": par, "variant": var, "sibling": sib}
        order = [first] + [k for k in fam if k != first]
        pr = [(A(),), (B(),), (E(),)]
        warmed = []
        for name in order:
            for p_ in pr:
                outcome(fam[name], *p_)
            warmed.append(name)
            for w_ in warmed:
                for p_ in pr:
                    n += 1
                    c0 = counter["n"]
                    outcome(fam[w_], *p_)
                    if counter["n"] != c0:
                        fam_fail.append(dict(first_used=first, just_used=name, repeated_call_on=w_, probe=repr(p_), consultations=counter["n"] - c0))
    if fam_fail:
        out.append(dict(name="no_consultation_after_warm_up_in_a_linked_family", n_violations=len(fam_fail), violations=fam_fail[:3]))
    return n, out


def main():
    n, failing = {"c04": c04, "c05": c05, "c20": c20}[sys.argv[1]]()
    print(json.dumps(dict(evaluations=n, failing=failing)))
    return 1 if failing else 0


if __name__ == "__main__":
    sys.exit(main())
