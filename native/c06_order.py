"""C06 in R mode (bounded): the layering computed by the real sort_types does not depend on the order in which the
registered types are enumerated, and outcomes do not depend on the hash seed.  Clauses are named by the family of
types involved so that the known mirror-symmetry findings do not mask the class fragment."""
import itertools
import json
import os
import subprocess
import sys

from ovld.mro import sort_types

import typeterms as T


def layers(cls, types):
    return [frozenset(map(id, g)) for g in sort_types(cls, types)]


def _names_probe():
    """outcomes that must not depend on the iteration order of sets of NAMES: a position that two methods name differently
    (strictly positional, docs/usage.md), and a body that uses recurse and then the function's own name"""
    import linecache

    from ovld import Ovld, recurse  # noqa: F401

    def call(th):
        try:
            return th()
        except TypeError as e:
            m = str(e)
            return "positional-only" if "positional-only" in m else "unexpected-keyword" if "unexpected keyword" in m else "AMBIGUOUS" if __import__("_errs").amb(m) else "NOMETHOD" if __import__("_errs").nomethod(m) else "TypeError"
        except Exception as e:
            return type(e).__name__

    out = []
    o = Ovld(name="names")

    def m1(left: int, other: object = None):
        return "int"

    def m2(right: str, other: object = None):
        return "str"

    o.register(m1)
    o.register(m2)
    out += [call(lambda: o(1)), call(lambda: o("a")), call(lambda: o(left=1)), call(lambda: o(right="a")), call(lambda: o(1, other=None)), call(lambda: o(left=1, other=None))]
    src = "def walk(x: list):\n    return [recurse(y) for y in x] + [walk(0)]\n\ndef walk_int(x: int):\n    return x + 1\n"
    fname = "<seedprobe-walk>"
    linecache.cache[fname] = (len(src), None, src.splitlines(True), fname)
    g = {"recurse": recurse}
    exec(compile(src, fname, "exec"), g)
    w = Ovld(name="walk")
    w.register(g["walk"])
    w.register(g["walk_int"])
    g["walk"] = w  # the module-level name is bound to the overloaded function, as after `@ovld def walk`
    out.append(call(lambda: w([1, 2])))
    return out


def main():
    if len(sys.argv) > 1 and sys.argv[1] == "seedprobe":
        import c02_oracle

        outs = []
        for sc in itertools.islice(c02_oracle.scenarios(), 0, 400, 7):
            outs.append(c02_oracle.run_scenario(sc)[0])
        outs.append(_names_probe())
        print(json.dumps(outs))
        return 0
    terms = T.terms(depth=2)
    fams = {
        "classes": [object, T.A, T.B, T.C, T.D, T.E, T.Proto, T.Proto2, T.WithFoo],
        "classes+generics": [object, T.A, T.B, list[T.A], list[T.B], type[T.A], type[T.B], list],
        "classes+dependent": [object, int, bool, terms["Equals"][0], terms["Equals"][4], terms["FuncDep"][0]],
        "classes+wildcard_dependent": [object, tuple, T.Shape[2, T.typing.Any], T.Shape[T.typing.Any, 2], T.Shape[2, 2], T.Shape[T.typing.Any, T.typing.Any]],
        "classes+crossing_wildcards": [object, tuple, T.Shape[2, 3, T.typing.Any], T.Shape[T.typing.Any, T.typing.Any, 5], T.Shape[2, T.typing.Any, T.typing.Any]],
        "with_unions": [object, T.A, T.E] + terms["Union"][:3] + [terms["Union"][6]],
        "with_intersections": [object, T.B, T.C] + terms["Inter"][:4],
    }
    dts, dcls = T.deferred_terms()
    fams["deferred_references"] = [object, dcls[0]] + dts
    probes = {"deferred_references": [dcls[1], dcls[2], dcls[3]], "classes": [T.D, T.B, T.A, T.E, T.WithFoo], "classes+generics": [list[T.B], type[T.B], T.B], "classes+dependent": [bool, int], "classes+wildcard_dependent": [tuple], "classes+crossing_wildcards": [tuple], "with_unions": [T.D, T.E, T.A], "with_intersections": [T.D, T.B]}
    failing, n = [], 0
    for fam, types in fams.items():
        bad = []
        for cls in probes[fam]:
            ref = None
            for perm in itertools.islice(itertools.permutations(types), 0, 720, 5):
                n += 1
                try:
                    l = layers(cls, list(perm))
                except Exception as e:
                    l = f"EXC {type(e).__name__}: {e}"
                if ref is None:
                    ref = l
                elif l != ref:
                    bad.append(dict(cls=repr(cls), order=[repr(t) for t in perm][:8], layers_differ=True))
                    break
        if bad:
            failing.append(dict(name=f"sort_types_order_free[{fam}]", n_violations=len(bad), violations=bad[:2], inputs=sorted({b["cls"] for b in bad})))
    # end to end: two deferred references at one argument position, both registration orders
    from ovld import Ovld

    outs = []
    for order in ((2, 3), (3, 2)):
        ov = Ovld(name="d")
        for i in order:
            g = {"T": dts[i]}
            exec(f"def m(x: T):\n    return 'ref{i}'\n", g)
            ov.register(g["m"])

        def mo(x: object):
            return "object"

        ov.register(mo)
        res = []
        for c in (dcls[2], dcls[3], dcls[0]):
            n += 1
            try:
                res.append(ov(c()))
            except TypeError as e:
                res.append("AMBIGUOUS" if __import__("_errs").amb(str(e)) else "NOMETHOD")
        outs.append(res)
    if outs[0] != outs[1] or outs[0] != ["ref2", "ref3", "object"]:
        failing.append(dict(name="registration_order_independent[deferred_references]", n_violations=1, violations=[dict(order_a=outs[0], order_b=outs[1], expected=["ref2", "ref3", "object"])]))
    # hash seeds
    ref = None
    for seed in ("0", "1", "12345", "2", "3", "99"):
        n += 1
        env = dict(os.environ, PYTHONHASHSEED=seed)
        p = subprocess.run([sys.executable, __file__, "seedprobe"], env=env, capture_output=True, text=True)
        if ref is None:
            ref = p.stdout
        elif p.stdout != ref:
            failing.append(dict(name="outcome_independent_of_hash_seed", n_violations=1, violations=[dict(seed=seed)]))
            break
    print(json.dumps(dict(evaluations=n, failing=failing)))
    return 1 if failing else 0


if __name__ == "__main__":
    sys.exit(main())
