"""./check <ID> [--tier quick|thorough] [--replay <path>] [--rebaseline]

Decides one property: runs its pyvc tasks (deductive obligations over the real ASTs), its native
conformance steps and known-finding witnesses, applies the verdict rules of DESIGN.md section 5 and writes
/verif/evidence/<ID>.json.

exit 0  property held on everything explored (possibly with KNOWN-FINDING lines)
exit 1  VIOLATION property=<id> replay=<path> [no-failing-input-found]
exit 2  UNDECIDED (anchor lost / code outside the verified subset / obligation no longer generated)
exit 3  CHECKER-ERROR (engine exception, model conformance failure)
"""
import argparse
import fnmatch
import importlib
import json
import os
import re
import subprocess
import sys
import time
from pathlib import Path

ROOT = Path(__file__).resolve().parent.parent
sys.path.insert(0, str(ROOT))

from pyvc import pool  # noqa: E402
from pyvc.interp import ASSUMPTIONS  # noqa: E402

REPO = Path(os.environ.get("OVLD_REPO", "/repo"))
NATIVE_PY = os.environ.get("OVLD_NATIVE_PY", "/venv/bin/python")


def native(argv, timeout=600, env_extra=None):
    """Run a native script under the interpreter that has ovld (current working tree) importable."""
    env = dict(os.environ)
    env["PYTHONPATH"] = f"{REPO}/src:{ROOT}/native"
    env["PYTHONDONTWRITEBYTECODE"] = "1"
    env.setdefault("PYTHONHASHSEED", "0")
    if env_extra:
        env.update(env_extra)
    t = time.time()
    try:
        p = subprocess.run([NATIVE_PY, *argv], cwd=str(ROOT / "native"), env=env, capture_output=True, text=True, timeout=timeout)
        return dict(rc=p.returncode, out=p.stdout, err=p.stderr[-3000:], wall=round(time.time() - t, 2))
    except subprocess.TimeoutExpired:
        return dict(rc=124, out="", err="timeout", wall=timeout)


def load_findings():
    p = ROOT / "known_findings.json"
    if not p.exists():
        return []
    return json.loads(p.read_text())["findings"]


def _match(name, pat):
    """Obligation patterns of known_findings.json: literal text with '*' wildcards ('[' and ']' are literal)."""
    parts = pat.split("*")
    if len(parts) == 1:
        return name == pat
    if not name.startswith(parts[0]) or not name.endswith(parts[-1]):
        return False
    pos = len(parts[0])
    for mid in parts[1:-1]:
        j = name.find(mid, pos)
        if j < 0:
            return False
        pos = j + len(mid)
    return pos <= len(name) - len(parts[-1])


def sanitize(name):
    return re.sub(r"[^A-Za-z0-9_.\-\[\],]", "_", name)[:150]


class Verdict:
    def __init__(self, pid, tier, seed):
        self.pid, self.tier, self.seed = pid, tier, seed
        self.lines = []
        self.violations = []
        self.known = []
        self.undecided = []
        self.errors = []

    def say(self, line):
        print(line, flush=True)
        self.lines.append(line)


def run_witness(f, cache):
    key = json.dumps(f["witness"])
    if key not in cache:
        r = native(f["witness"], timeout=300)
        cache[key] = r
    return cache[key]


def main(argv=None):
    ap = argparse.ArgumentParser()
    ap.add_argument("pid")
    ap.add_argument("--tier", default=os.environ.get("VERIF_TIER", "quick"), choices=["quick", "thorough"])
    ap.add_argument("--replay")
    ap.add_argument("--rebaseline", action="store_true")
    ap.add_argument("--procs", type=int, default=int(os.environ.get("VERIF_PROCS", "16")))
    args = ap.parse_args(argv)
    seed = int(os.environ.get("VERIF_SEED", "0") or 0)
    pid = args.pid
    t0 = time.time()

    if args.replay:
        return replay(args.replay)

    try:
        prop = importlib.import_module(f"props.{pid}")
    except ModuleNotFoundError as e:
        print(f"CHECKER-ERROR: no check for {pid}: {e}")
        return 3

    V = Verdict(pid, args.tier, seed)
    OUT = Path(os.environ.get("VERIF_OUT", str(ROOT)))  # development only: keep scratch runs from touching /verif/evidence
    ev_path = OUT / "evidence" / f"{pid}.json"
    ev_path.parent.mkdir(parents=True, exist_ok=True)
    replay_dir = OUT / "replays" / pid
    replay_dir.mkdir(parents=True, exist_ok=True)

    # 0. model conformance (routing tables, library models) against the live objects ----------------
    conf = {"evaluations": 0, "steps": []}
    for step in getattr(prop, "conformance", lambda tier: [])(args.tier):
        r = native(step["argv"], timeout=step.get("timeout", 600), env_extra={"VERIF_SEED": str(seed)})
        info = {}
        try:
            info = json.loads(r["out"].strip().splitlines()[-1]) if r["out"].strip() else {}
        except Exception:
            info = {"raw": r["out"][-500:]}
        conf["steps"].append(dict(name=step["name"], rc=r["rc"], wall=r["wall"], **{k: info[k] for k in info if k in ("evaluations", "failures", "note")}))
        conf["evaluations"] += int(info.get("evaluations", 0) or 0)
        if r["rc"] != 0 and step.get("violation_on_fail") and "failing" not in info:
            # the suite itself died (traceback, timeout): undecided, never a violation
            V.undecided.append(f"native suite {step['name']} did not finish: {(r['err'] or r['out'])[-300:]!r}")
        elif r["rc"] != 0:
            if step.get("violation_on_fail"):
                # a native contract check (R mode) failed: this is a finding about the code, handled below
                V.native_failures = getattr(V, "native_failures", []) + [dict(step=step, result=r, info=info)]
            else:
                V.errors.append(f"model conformance step {step['name']} failed rc={r['rc']}: {(r['out'] + r['err'])[-800:]}")

    # 1. deductive tasks -------------------------------------------------------------------------------
    if args.tier == "thorough":
        os.environ["VERIF_XCHECK"] = "1"  # every distinct proved obligation is re-run on /usr/bin/z3 4.8.12 and cvc5
    tasks = prop.tasks(args.tier)
    from props import _premise

    own_names = {t["name"] for t in tasks}
    tasks = tasks + _premise.premise_tasks(unbounded_only=getattr(prop, "LEVEL", "") == "proof")  # the dispatch core: a premise of every property (props/_premise.py)
    # a premise task that is not one of the property's own tasks can only ADD a violation: when the code under it was rewritten so
    # that its contract no longer applies (anchor lost), the property's own verdict stands and the evidence says so
    premise_only = {t["name"] for t in tasks} - own_names
    premise_undecided = []
    tasks = list({t["name"]: t for t in reversed(tasks)}.values())[::-1]  # a task shared by two task lists runs once
    if not any(t["name"] == "frames.state" for t in tasks):
        # premise of every property: the contracts quantify over the declared state of the library (contracts/state_c.py);
        # state added by a change has no contract yet
        from contracts import state_c

        tasks = tasks + [dict(name="frames.state", build=state_c.state_task(["typemap", "mro", "core", "recode", "types", "dependent", "utils", "abc"]), mode="F")]
    results = pool.run_all([(t["name"], t["build"], t.get("mode", "U")) for t in tasks], procs=args.procs)
    by_task = {r["name"]: r for r in results}
    meta_by_task = {t["name"]: t for t in tasks}

    ob_status = {}  # obligation name -> worst status
    own_obligations = set()  # obligations generated by the property's own tasks (not only by the shared premise)
    ob_detail = {}
    rank = {"proved": 0, "unknown": 1, "refuted": 2}
    n_inst = n_proved = 0
    bounded_inst = bounded_proved = 0
    solver_s = 0.0
    functions = {}
    trusted = set()
    xtally = {}
    for r in results:
        for be, d in (r.get("meta", {}).get("xcheck") or {}).items():
            for a, c in d.items():
                xtally.setdefault(be, {}).setdefault(a, 0)
                xtally[be][a] += c
        solver_s += r["solver_s"]
        for q, sha in r["functions"]:
            functions[q] = sha
        trusted.update(r["trusted"])
        if r["status"] == "error":
            V.errors.append(f"task {r['name']}: {r['detail']}")
        elif r["status"] == "undecided":
            if r["name"] in premise_only:
                premise_undecided.append(f"task {r['name']}: {r['detail'].splitlines()[0] if r['detail'] else ''}")
            else:
                V.undecided.append(f"task {r['name']}: {r['detail'].splitlines()[0] if r['detail'] else ''}")
        for o in r["obligations"]:
            is_b = r["mode"] != "U"
            if is_b:
                bounded_inst += 1
                bounded_proved += o["status"] == "proved"
            else:
                n_inst += 1
                n_proved += o["status"] == "proved"
            nm = o["name"]
            if nm not in ob_status or rank[o["status"]] > rank[ob_status[nm]]:
                ob_status[nm] = o["status"]
                ob_detail[nm] = dict(o, task=r["name"])
            if r["name"] not in premise_only:
                own_obligations.add(nm)

    # 2. baseline: every obligation proved on the pinned tree must still be generated --------------------
    base_path = ROOT / "baseline" / f"{pid}.json"
    if args.rebaseline:
        base_path.parent.mkdir(exist_ok=True)
        base_path.write_text(json.dumps({"obligations": {k: v for k, v in sorted(ob_status.items())}, "premise_only": sorted(set(ob_status) - own_obligations)}, indent=0))
        print(f"baseline written: {len(ob_status)} obligation names")
    base_doc = json.loads(base_path.read_text()) if base_path.exists() else {}
    baseline = base_doc.get("obligations", {})
    base_premise_only = set(base_doc.get("premise_only", []))
    undecided_tasks = {r["name"] for r in results if r["status"] != "ok"}
    for nm, st in baseline.items():
        if st == "proved" and nm not in ob_status:
            if nm.endswith(("_key_present", "index_in_range")):
                continue  # exception-freedom of an indexing operation: generated only where the code indexes (d[k] vs d.get(k))
            tname = nm.rsplit("/", 1)[0]
            if not any(nm.startswith(u + "/") for u in undecided_tasks):
                if nm in base_premise_only:
                    premise_undecided.append(f"obligation {nm} of the shared premise was not generated in this run")
                else:
                    V.undecided.append(f"obligation {nm} (proved on the pinned tree) was not generated in this run")

    # 3. verdict per failing obligation -----------------------------------------------------------------
    native_items = []
    for nf in getattr(V, "native_failures", []):
        for item in nf["info"].get("failing", [{"name": nf["step"]["name"]}]):
            nm = f"{nf['step']['name']}/{item['name']}"
            item = dict(item)
            item.setdefault("violations", [dict(item)])
            ob_status[nm] = "refuted"
            ob_detail[nm] = dict(name=nm, status="refuted", model=json.dumps(item, default=repr)[:2000], task=nf["step"]["name"], time=0, native=True, witness=item)
            native_items.append(nm)
    all_findings = load_findings()
    findings = [f for f in all_findings if f["property"] == pid or pid in f.get("also", [])]
    # a finding listed for another property still covers a failing obligation of a shared contract
    shared = [f for f in all_findings if f not in findings and f["status"] == "open" and any(_match(nm, pat) for nm in ob_status if ob_status[nm] != "proved" for pat in f.get("obligations", []))]
    findings = findings + shared
    wcache = {}
    failing = sorted(nm for nm, st in ob_status.items() if st != "proved")
    covered_by = {}
    for nm in failing:
        for f in findings:
            if f["status"] == "open" and any(_match(nm, pat) for pat in f.get("obligations", [])):
                if nm in native_items:  # the failing native clause is itself the witness
                    # a finding recorded with the inputs that fail on the unchanged tree covers exactly those: a failing
                    # input it does not list is a different violation of the same clause
                    rec = (f.get("inputs") or {}).get(nm)
                    got = ob_detail[nm].get("witness", {}).get("inputs")
                    if rec is not None and got is not None:
                        new = sorted(set(got) - set(rec))
                        if new:
                            ob_detail[nm]["new_inputs"] = new[:10]
                            ob_detail[nm]["model"] = json.dumps(dict(clause=nm, failing_inputs_not_listed_in_the_known_finding=new[:10], finding=f["id"]))[:2000]
                            continue
                    covered_by[nm] = f
                    break
                w = run_witness(f, wcache)
                if w["rc"] == 1:
                    covered_by[nm] = f
                    break
    printed = set()
    for f in findings:
        w = run_witness(f, wcache)
        if f["status"] == "open":
            if w["rc"] == 1:
                V.say(f"KNOWN-FINDING: property={pid} {f['id']}: {f['what']}")
                V.known.append(f["id"])
                printed.add(f["id"])
            elif w["rc"] not in (0, 1):
                V.errors.append(f"witness of {f['id']} crashed rc={w['rc']}: {(w['out'] + w['err'])[-600:]}")
        elif f["status"] == "fixed":
            if w["rc"] == 1:
                rp = replay_dir / f"{sanitize(f['id'])}.regression.json"
                rp.write_text(json.dumps(dict(property=pid, obligation=f"fixed-finding {f['id']}", witness_cmd=f["witness"], native_output=w["out"][-3000:], what=f["what"]), indent=1))
                V.say(f"VIOLATION property={pid} replay={rp}")
                V.violations.append(dict(obligation=f["id"], replay=str(rp), kind="fixed finding returned"))
            elif w["rc"] not in (0, 1):
                V.errors.append(f"witness of fixed {f['id']} crashed rc={w['rc']}: {(w['out'] + w['err'])[-600:]}")

    for nm in failing:
        if nm in covered_by:
            continue
        d = ob_detail[nm]
        # concretise: bounded native search guided by the failed obligation
        witness = None
        searched = None
        if d.get("native"):
            witness = d.get("witness")
        else:
            conc = getattr(prop, "concretise", None)
            if conc is not None:
                try:
                    searched = conc(nm, d, by_task.get(d["task"]), native)
                    if searched and searched.get("violations"):
                        witness = searched
                except Exception as e:  # the concretiser failing never hides the failed obligation
                    searched = dict(error=f"{type(e).__name__}: {e}")
        rp = replay_dir / f"{sanitize(nm)}.json"
        rp.write_text(
            json.dumps(
                dict(
                    property=pid,
                    obligation=nm,
                    status=d["status"],
                    solver_output=d.get("model") or "(no model: solver answered unknown)",
                    goal=d.get("goal"),
                    path=d.get("path"),
                    native_witness=witness,
                    native_search=searched,
                    replay_cmd=(witness or {}).get("replay_cmd"),
                    repo=str(REPO),
                ),
                indent=1,
            )
        )
        suffix = "" if witness else " no-failing-input-found"
        V.say(f"VIOLATION property={pid} replay={rp}{suffix}")
        V.violations.append(dict(obligation=nm, replay=str(rp), status=d["status"], witness=bool(witness)))

    # 4. evidence ------------------------------------------------------------------------------------------
    names = sorted(ob_status)
    n_names = len(names)
    n_names_proved = sum(1 for n in names if ob_status[n] == "proved")
    level = prop.LEVEL
    samples = []
    for nm in names[:: max(1, len(names) // 6)][:6]:
        d = ob_detail[nm]
        samples.append(dict(obligation=nm, verdict=d["status"], solver_s=d.get("time"), goal=(d.get("goal") or "")[:200]))
    for nm in failing[:4]:
        d = ob_detail[nm]
        samples.append(dict(obligation=nm, verdict=d["status"], covered_by=(covered_by[nm]["id"] if nm in covered_by else None)))
    open_f = [f["id"] for f in findings if f["status"] == "open"]
    coverage = dict(
        obligations=n_inst,
        discharged=n_proved,
        obligation_names=n_names,
        obligation_names_discharged=n_names_proved,
        bounded_obligations=bounded_inst,
        bounded_discharged=bounded_proved,
        evaluations=n_inst + bounded_inst + conf["evaluations"],
        distinct_nontrivial=n_names,
        rule="one evaluation per generated proof-obligation instance (path x site) plus native conformance evaluations; distinct = distinct obligation names (function/lemma + clause); trivial (syntactically true) goals are counted but marked",
        checker_cmd=f"./check {pid} --tier {args.tier}",
        backends={"z3-" + _z3v(): n_inst + bounded_inst, **{be: sum(d.values()) for be, d in xtally.items()}},
        backend_cross_check=xtally,
        cover=_cover_summary(results),
        solver_s=round(solver_s, 2),
        functions_under_contract=[f"{q}@{sha}" for q, sha in sorted(functions.items())],
        tasks=[dict(name=r["name"], mode=r["mode"], status=r["status"], paths=r["paths"], obligations=len(r["obligations"]), wall_s=r["wall_s"]) for r in results],
        trusted_base=sorted(trusted) + getattr(prop, "TRUSTED", []),
        known_findings=sorted(V.known),
        open_findings_listed=open_f,
        failing_obligations_covered_by_findings={nm: covered_by[nm]["id"] for nm in covered_by},
        model_conformance_evaluations=conf["evaluations"],
        conformance_steps=conf["steps"],
        samples=samples,
        undecided=V.undecided[:20],
        premise_undecided=premise_undecided[:20],
        explanation=getattr(prop, "EXPLANATION", ""),
        bounds=getattr(prop, "BOUNDS", {}),
    )
    evidence = dict(
        property_id=pid,
        tier=args.tier,
        seed=seed,
        level=level,
        coverage=coverage,
        assumptions=ASSUMPTIONS + getattr(prop, "ASSUMPTIONS", []),
        wall_s=round(time.time() - t0, 2),
        violations=len(V.violations),
    )
    ev_path.write_text(json.dumps(evidence, indent=1))

    if V.errors:
        for e in V.errors:
            print("CHECKER-ERROR:", e)
        if not V.violations:
            return 3
    if V.violations:
        return 1
    if V.undecided:
        for u in V.undecided:
            print("UNDECIDED:", u)
        return 2
    print(f"OK property={pid} tier={args.tier} obligations={n_inst} discharged={n_proved} bounded={bounded_inst}/{bounded_proved} known_findings={len(V.known)} wall={round(time.time() - t0, 1)}s")
    return 0


def replay(path):
    d = json.loads(Path(path).read_text())
    print(json.dumps({k: d[k] for k in d if k in ("property", "obligation", "status", "native_witness")}, indent=1)[:3000])
    cmd = d.get("replay_cmd") or (d.get("witness_cmd"))
    if cmd:
        r = native(cmd)
        print(r["out"][-3000:])
        return 1 if r["rc"] == 1 else (0 if r["rc"] == 0 else 3)
    print("no native replay command recorded for this obligation (no-failing-input-found)")
    return 1


def _cover_summary(results):
    """vacuity guard per task: were the premises of a complete path shown satisfiable (sat), only not refutable by the
    proof engine (canary), or is the task not solver-based (n/a)?"""
    out = {}
    for r in results:
        for c in r.get("meta", {}).get("cover") or ["none"]:
            out[c] = out.get(c, 0) + 1
    return out


def _z3v():
    import z3

    return z3.get_version_string()


if __name__ == "__main__":
    sys.exit(main())
