from ovld import ovld, Ovld, call_next, recurse
def tryf(label, th):
    try:
        print(label, "->", th())
    except Exception as e:
        print(label, "-> EXC", type(e).__name__, str(e).splitlines()[0][:120])
@ovld
def h(x: int): return "int"
@ovld
def h(x: str):
    z = call_next   # misuse
    return "bad"
@ovld
def h(x: float): return "float"
tryf("h(1) first", lambda: h(1))
tryf("h(1) second", lambda: h(1))
tryf("h(1.5)", lambda: h(1.5))
tryf("h('a')", lambda: h('a'))
print(h.__ovld__._compiled)
