from ovld import ovld, Ovld, call_next, recurse, MultiTypeMap, Dependent
from ovld.core import Signature
from ovld.dependent import Regexp
def tryf(label, th):
    try:
        print(label, "->", th())
    except Exception as e:
        print(label, "-> EXC", type(e).__name__, str(e).splitlines()[0][:120])
def mksig(types, req_pos, max_pos, priority=0):
    return Signature(types=types, return_type=None, req_pos=req_pos, max_pos=max_pos, req_names=frozenset(), vararg=False, priority=priority)
class A: pass
class B: pass
class C(A,B): pass
# C05 stale error in MultiTypeMap
tm = MultiTypeMap()
def ha(): pass
def hb(): pass
def hc(): pass
tm.register(mksig((A,),1,1), ha)
tm.register(mksig((B,),1,1), hb)
tryf("tm[C] ambiguous", lambda: tm[(C,)])
tm.register(mksig((C,),1,1), hc)
tryf("tm[C] after registering C", lambda: tm[(C,)])
tm2 = MultiTypeMap()
tm2.register(mksig((A,),1,1), ha); tm2.register(mksig((B,),1,1), hb); tm2.register(mksig((C,),1,1), hc)
tryf("fresh tm2[C]", lambda: tm2[(C,)])

# C10: union of dependents with different bounds
@ovld
def f(x: Regexp["^a"] | Dependent[int, lambda v: v > 0]): return "dep"
@ovld
def f(x: object): return "obj"
tryf("f('abc')", lambda: f('abc'))
tryf("f(5)", lambda: f(5))
tryf("f(-5)", lambda: f(-5))
tryf("f('zzz')", lambda: f('zzz'))

# C07 call_next through replaced identical signature
@ovld
def g(x: int): return ["first"]
@ovld
def g(x: int): return ["second"] + call_next(x)
@ovld
def g(x: int): return ["third"] + call_next(x)
tryf("g(1)", lambda: g(1))
# C18: failed build then retry
@ovld
def h(x: int): return "int"
@ovld
def h(y: int, x: str): return "bad"
tryf("h(1) first", lambda: h(1))
tryf("h(1) second", lambda: h(1))
tryf("h('a')", lambda: h('a'))
