from ovld import ovld, call_next
def tryf(label, th):
    try: print(label, "->", th())
    except Exception as e: print(label, "-> EXC", type(e).__name__, (str(e).splitlines() or [""])[0][:100])
@ovld
def f(x: tuple[int, ...]): return "ints"
@ovld
def f(x: object): return "obj"
tryf("f((1,2,3))", lambda: f((1, 2, 3)))
tryf("f((1,2))", lambda: f((1, 2)))
tryf("f(())", lambda: f(()))
@ovld
def g(x: int): return ["int"] + call_next(*[x])
@ovld
def g(x: object): return ["obj"]
tryf("g(1) call_next(*args)", lambda: g(1))
