from ovld import ovld, Ovld, call_next, recurse, OvldMC, extend_super
def tryf(label, th):
    try:
        print(label, "->", th())
    except Exception as e:
        print(label, "-> EXC", type(e).__name__, str(e).splitlines()[0][:140])
# C16: grandparent lock
@ovld
def gp(x: int): return "gp-int"
@gp.variant
def par(x: str): return "par-str"
@par.variant
def ch(x: float): return "ch-float"
tryf("ch(1)", lambda: ch(1))
def newint(x: int): return "gp-int-NEW"
tryf("gp.register after grandchild used", lambda: gp.register(newint) and "registered OK (no lock)")
tryf("gp(1)", lambda: gp(1))
tryf("ch(1) after", lambda: ch(1))
def newstr(x: str): return "par-NEW"
tryf("par.register after child used", lambda: par.register(newstr) and "registered")
# add_mixins after compile
@ovld
def a(x: int): return "a-int"
@ovld
def b(x: str): return "b-str"
tryf("a(1)", lambda: a(1))
tryf("a.add_mixins(b)", lambda: a.add_mixins(b))
tryf("a('s') after add_mixins", lambda: a('s'))
# C15: union reorder
class A: pass
class B: pass
@ovld
def u(x: A | B): return "first"
@ovld
def u(x: B | A): return "second"
tryf("u(A())", lambda: u(A()))
@ovld
def u2(x: A | B): return "first"
@ovld
def u2(x: A | B): return "second"
tryf("u2(A())", lambda: u2(A()))
