from ovld import ovld, recurse, call_next
def tryf(label, th):
    try:
        print(label, "->", th())
    except Exception as e:
        print(label, "-> EXC", type(e).__name__, str(e).splitlines()[0][:140])
@ovld
def g(x: int, *, k: int): return ("int", x, k)
@ovld
def g(x: list, *, k: int):
    kw = {"k": k}
    return [recurse(y, **kw) for y in x]
tryf("g([1,2],k=3) **kw at call site", lambda: g([1,2], k=3))
log = []
def side(v):
    log.append(v); return v
@ovld
def h(x: int, y: int): return x - y
@ovld
def h(x: str, y: str): return recurse(side(1), side(2))
tryf("h order", lambda: (h("a","b"), log))
