from ovld import ovld, Ovld, call_next, recurse, Dependent, OvldMC, OvldBase, extend_super
def tryf(label, th):
    try:
        print(label, "->", th())
    except Exception as e:
        print(label, "-> EXC", type(e).__name__, (str(e).splitlines() or [""])[0][:110])
class A: pass
class B: pass
class C(A,B):
    def __init__(self, v=0): self.v = v
@ovld
def f(x: Dependent[C, lambda c: c.v > 0]): return "dep"
@ovld
def f(x: A): return "A"
@ovld
def f(x: B): return "B"
tryf("f(C(1))", lambda: f(C(1)))
tryf("f(C(0)) expected ambiguity", lambda: f(C(0)))
@ovld
def f2(x: A): return "A"
@ovld
def f2(x: B): return "B"
tryf("f2(C(0)) reference", lambda: f2(C(0)))

# C17 probes
class One(metaclass=OvldMC):
    def f(self, x: int): return "One.int"
    def f(self, x: str): return "One.str"
class Two(One):
    @extend_super
    def f(self, x: float): return "Two.float"
class Three(One):
    @extend_super
    def f(self, x: int): return "Three.int"
for cls in (One, Two, Three):
    for v in (1, "s", 1.5):
        tryf(f"{cls.__name__}().f({v!r})", lambda: cls().f(v))
