from ovld import ovld, recurse, call_next
@ovld
def f(x: list): return [f(x[0]), recurse(x[1])]
@ovld
def f(x: int): return x + 1
try: print("f([1,2]) ->", f([1, 2]))
except Exception as e: print("f([1,2]) -> EXC", type(e).__name__, str(e)[:90])
@ovld
def g(x: list): return [recurse(x[0]), g(x[1])]
@ovld
def g(x: int): return x + 1
try: print("g([1,2]) ->", g([1, 2]))
except Exception as e: print("g([1,2]) -> EXC", type(e).__name__, str(e)[:90])
