import linecache
from typing import Literal
from ovld import ovld, Dependent, Ovld
from ovld.dependent import Regexp
def show(o, *args, **kw):
    try: o(*args, **kw)
    except Exception as e: pass
    m = o.__ovld__.map
    for k, v in list(m.items()):
        fn = getattr(v, "__code__", None)
        if fn and fn.co_filename.startswith("<ovld"):
            print("key:", k); print("".join(linecache.getlines(fn.co_filename)))
            print("  globals:", {n: (type(x).__name__, str(x)[:40]) for n, x in v.__globals__.items() if not n.startswith("__")})
@ovld
def a(x: Literal[1, 2]): return "12"
@ovld
def a(x: Literal[3]): return "3"
@ovld
def a(x: int): return "int"
print("== (a) small literal set"); show(a, 1)
@ovld
def b(x: Literal[1, 2]): return "12"
@ovld
def b(x: Literal[3]): return "3"
@ovld
def b(x: Literal[4]): return "4"
@ovld
def b(x: Literal[5]): return "5"
@ovld
def b(x: Literal[6]): return "6"
print("== (b) table path"); show(b, 1)
@ovld
def c(x: Dependent[int, lambda v: v > 0], y: Regexp["^a"]): return "pos"
@ovld
def c(x: Dependent[int, lambda v: v % 2 == 0], y: str): return "even"
print("== (c) counting, 2 positions"); show(c, 2, "a")
class M:
    @ovld
    def d(self, x: Literal[0], *, k: tuple[int, Literal["z"]]): return 0
    @ovld
    def d(self, x: int, *, k: tuple): return 1
print("== (d) method, keyword, product"); show(M.d, M(), 0, k=(1, "z"))
