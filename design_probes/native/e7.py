from ovld import ovld, recurse, call_next
def tryf(label, th):
    try:
        print(label, "->", th())
    except Exception as e:
        print(label, "-> EXC", type(e).__name__, str(e).splitlines()[0][:140])
@ovld
def f(xs: list): return [y for y in recurse(tuple(xs))]
@ovld
def f(xs: tuple): return list(xs)
tryf("f([1,2]) comprehension iterable", lambda: f([1,2]))
@ovld
def f2(xs: list): return [y for ys in xs for y in recurse(ys)]
@ovld
def f2(xs: tuple): return list(xs)
tryf("f2 nested iterable", lambda: f2([(1,2),(3,)]))
@ovld
def f3(x: int = 0, y: int = recurse): return 1
