from ovld import Ovld
def tryf(label, th):
    try:
        print(label, "->", th())
    except Exception as e:
        print(label, "-> EXC", type(e).__name__, (str(e).splitlines() or [""])[0][:110])
def f1(x: int): return "f1"
def f1b(x: int): return "f1b"
def f2(x: int, y: int = 0): return "f2"
o = Ovld(name="hist")
o.register(f1); o.register(f1b); o.unregister(f1b); o.register(f2)
tryf("history: reg f1, reg f1b (same sig), unreg f1b, reg f2 ; call(1)", lambda: o(1))
fresh = Ovld(name="fresh")
fresh.register(f1); fresh.register(f2)
tryf("fresh {f1,f2}; call(1)", lambda: fresh(1))
