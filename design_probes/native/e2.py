from typing import Literal
from ovld import ovld, Dependent, call_next, recurse
import traceback
def tryf(label, th):
    try:
        print(label, "->", th())
    except Exception as e:
        print(label, "-> EXC", type(e).__name__, str(e).splitlines()[0][:100])

# C11: multi-valued literal on table path
@ovld
def g(x: Literal[1, 2]): return "12"
@ovld
def g(x: Literal[3]): return "3"
@ovld
def g(x: Literal[4]): return "4"
@ovld
def g(x: Literal[5]): return "5"
@ovld
def g(x: Literal[6]): return "6"
for v in (1,2,3,6,7):
    tryf(f"g({v})", lambda: g(v))

# overlapping literals
@ovld
def h(x: Literal[1, 2]): return "12"
@ovld
def h(x: Literal[2, 3]): return "23"
for v in (1,2,3):
    tryf(f"h({v})", lambda: h(v))

# mixed value types
@ovld
def k(x: Literal[1, "a"]): return "1a"
@ovld
def k(x: object): return "obj"
for v in (1,"a",2,"b"):
    tryf(f"k({v!r})", lambda: k(v))
@ovld
def k2(x: Literal["a", 1]): return "a1"
@ovld
def k2(x: object): return "obj"
for v in (1,"a",2,"b"):
    tryf(f"k2({v!r})", lambda: k2(v))
