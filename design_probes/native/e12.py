import itertools, typing, collections
from typing import Literal
from ovld import typeorder, subclasscheck, Dependent
from ovld.mro import Order
from ovld.types import Union, Intersection, Exactly, StrictSubclass, HasMethod, All, normalize_type
from ovld.dependent import Equals, ProductType, StartsWith, Regexp
class A: pass
class B: pass
class C(A): pass
class D(A, B): pass
classes = [object, A, B, C, D, int]
def kind(t):
    n = type(t).__name__
    if n == 'MetaMC': return t.__name__.split('[')[0]
    if isinstance(t, type) and type(t) is type: return 'Class'
    if hasattr(t, '__origin__') and t.__origin__ is not None: return 'Alias'
    return n
base = list(classes)
terms = list(base)
terms += [list[A], list[C], list[object], type[A], type[C], type[object], dict[str, A]]
terms += [Exactly[A], Exactly[C], StrictSubclass[A], HasMethod["__len__"], All]
terms += [Union[A, B], Union[B, C], Union[C, D], Union[A, int], Intersection[A, B], Intersection[B, C], Intersection[A, int]]
pos = Dependent[A, lambda x: True]; pos2 = Dependent[C, lambda x: True]; pos3 = Dependent[A, lambda x: False]
terms += [Equals[1], Equals[1, 2], Equals["a"], pos, pos2, pos3, StartsWith["x"], ProductType[A, B], ProductType[C, B], ProductType[A]]
terms += [Union[A, Exactly[B]], Union[Intersection[A, B], int], Intersection[Union[A, B], C], Union[pos, B], Intersection[pos, B]]
bad = collections.Counter(); ex = {}
tot = 0
for t1, t2 in itertools.combinations(terms, 2):
    try:
        o1, o2 = typeorder(t1, t2), typeorder(t2, t1)
    except Exception as e:
        k = (kind(t1), kind(t2), 'EXC'); bad[k] += 1; ex.setdefault(k, (t1, t2, repr(e)[:60])); continue
    tot += 1
    if o1 is not o2.opposite():
        k = tuple(sorted((kind(t1), kind(t2)))); bad[k] += 1; ex.setdefault(k, (t1, t2, o1.name, o2.name))
print("pairs", tot, "kinds violating mirror:", len(bad))
for k, n in sorted(bad.items(), key=lambda kv: -kv[1]):
    print(n, k, ex[k])
# reflexivity & members
for u in [Union[A, B], Union[Intersection[A, B], int], Union[pos, B], Union[A, Exactly[B]]]:
    for m in u.__args__:
        print("union>=member", u, m, typeorder(u, m).name, typeorder(m, u).name)
for i in [Intersection[A, B], Intersection[Union[A, B], C], Intersection[pos, B]]:
    for m in i.__args__:
        print("inter<=member", i, m, typeorder(i, m).name, typeorder(m, i).name)
