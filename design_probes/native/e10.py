from ovld import ovld, Ovld, call_next, recurse
def tryf(label, th):
    try:
        print(label, "->", th())
    except Exception as e:
        print(label, "-> EXC", type(e).__name__, (str(e).splitlines() or [""])[0][:140])
class Meta(type): pass
class K(metaclass=Meta): pass
@ovld
def f(x: Meta): return "meta"
@ovld
def f(x: int): return "int"
tryf("f(K)", lambda: f(K))
tryf("f.resolve(K)", lambda: f.resolve(K).__name__)
tryf("f.resolve(1)", lambda: f.resolve(1).__name__)
# async exception between resolve writes -> continuation missing?
import ovld.typemap as tmod
@ovld
def g(x: int): return ["int"] + call_next(x)
@ovld
def g(x: object): return ["obj"]
m = g.__ovld__
m.compile() if not m._compiled else None
class Boom(Exception): pass
orig = m._key_error
# simulate interrupt: make dict __setitem__ raise on second write
cnt = {"n": 0}
class M2(type(m.map)):
    def __setitem__(self, k, v):
        cnt["n"] += 1
        if cnt["n"] == 2: raise Boom()
        super().__setitem__(k, v)
m.map.__class__ = M2
tryf("g(1) with interrupt at 2nd write", lambda: g(1))
m.map.__class__ = tmod.MultiTypeMap
tryf("g(1) afterwards", lambda: g(1))
