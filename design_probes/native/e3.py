from ovld import ovld, Ovld, call_next, recurse
def tryf(label, th):
    try:
        print(label, "->", th())
    except Exception as e:
        print(label, "-> EXC", type(e).__name__, str(e).splitlines()[0][:120])

# C03: optional positional + keyword
@ovld
def f(x: int, y: int = 7, *, k: int = 3): return ("ii", x, y, k)
@ovld
def f(x: str, y: int = 9, *, k: int = 4): return ("si", x, y, k)
tryf("f(1)", lambda: f(1))
tryf("f(1,k=5)", lambda: f(1, k=5))
tryf("f('a',2,k=5)", lambda: f('a', 2, k=5))
tryf("f(x=1)", lambda: f(x=1))
tryf("f(1,y=2)", lambda: f(1, y=2))

# all-optional with no args
@ovld
def g(x: int = 1): return ("g", x)
tryf("g()", lambda: g())
tryf("g(5)", lambda: g(5))

@ovld
def g2(x: int = 1, y: str = "s"): return ("g2", x, y)
@ovld
def g2(x: str = "q", y: str = "t"): return ("g2s", x, y)
tryf("g2()", lambda: g2())
tryf("g2(5)", lambda: g2(5))
tryf("g2('a')", lambda: g2('a'))
tryf("g2(5, 'z')", lambda: g2(5, 'z'))
tryf("g2(5, y='z')", lambda: g2(5, y='z'))

# required kw + optional kw
@ovld
def h(x: int, *, a: int, b: str = "B"): return ("h", x, a, b)
tryf("h(1,a=2)", lambda: h(1, a=2))
tryf("h(1,a=2,b='c')", lambda: h(1, a=2, b='c'))
tryf("h(1)", lambda: h(1))
tryf("h(1,b='c')", lambda: h(1, b='c'))
print(open(h.__code__.co_filename).read() if False else "")
import linecache
print("".join(linecache.getlines(f.__code__.co_filename)))
print("".join(linecache.getlines(g2.__code__.co_filename)))
print("".join(linecache.getlines(h.__code__.co_filename)))
