from typing import Literal
from ovld import ovld, recurse, call_next, Dependent
def tryf(label, th):
    try:
        print(label, "->", th())
    except Exception as e:
        print(label, "-> EXC", type(e).__name__, str(e).splitlines()[0][:140])
@ovld
def f(*, k: Literal[1]): return "k1"
@ovld
def f(*, k: int): return "kint"
tryf("f(k=1)", lambda: f(k=1))
tryf("f(k=2)", lambda: f(k=2))
# dependent + ordered within group
@ovld
def g(x: Dependent[int, lambda v: v > 0]): return "pos"
@ovld
def g(x: Dependent[bool, lambda v: v]): return "true"
@ovld
def g(x: object): return "obj"
tryf("g(True)", lambda: g(True))
tryf("g(5)", lambda: g(5))
tryf("g(False)", lambda: g(False))
# call_next into ambiguous rank
class A: pass
class B: pass
class C(A,B): pass
@ovld
def h(x: C): return ["C"] + call_next(x)
@ovld
def h(x: A): return ["A"]
@ovld
def h(x: B): return ["B"]
tryf("h(C())", lambda: h(C()))
tryf("h(C()) again", lambda: h(C()))
# call_next different type
@ovld
def k(x: int): return ["int"] + call_next("s")
@ovld
def k(x: str): return ["str"]
@ovld
def k(x: object): return ["obj"]
tryf("k(1)", lambda: k(1))
