from ovld import ovld, typeorder, subclasscheck
from ovld.types import Union, Intersection, Exactly, StrictSubclass, HasMethod
from ovld.mro import Order
class A: pass
class B: pass
class C: pass
class D(A): pass
class E(D,B): pass
print("U[A,B] vs U[B,C]:", typeorder(Union[A,B], Union[B,C]), typeorder(Union[B,C], Union[A,B]))
print("I[A,B] vs I[B,C]:", typeorder(Intersection[A,B], Intersection[B,C]), typeorder(Intersection[B,C], Intersection[A,B]))
print("U[A,B] vs U[B,A]:", typeorder(Union[A,B], Union[B,A]), Union[A,B]==Union[B,A])
print("U[A,B] vs I[A,B]:", typeorder(Union[A,B], Intersection[A,B]), typeorder(Intersection[A,B], Union[A,B]))
print("Exactly[A] vs A:", typeorder(Exactly[A], A), typeorder(A, Exactly[A]))
print("Exactly[A] vs D:", typeorder(Exactly[A], D), typeorder(D, Exactly[A]))
print("Exactly[A] vs Exactly[D]:", typeorder(Exactly[A], Exactly[D]), typeorder(Exactly[D], Exactly[A]))
print("Strict[A] vs A:", typeorder(StrictSubclass[A], A), typeorder(A, StrictSubclass[A]))
print("Strict[A] vs D:", typeorder(StrictSubclass[A], D), typeorder(D, StrictSubclass[A]))
print("HasMethod vs A:", typeorder(HasMethod["__len__"], list), typeorder(list, HasMethod["__len__"]))
print("list[int] vs list:", typeorder(list[int], list), typeorder(list, list[int]))
print("list[int] vs list[object]:", typeorder(list[int], list[object]), typeorder(list[object], list[int]))
print("list[int] vs Sequence", )
import typing, collections.abc as cabc
print(typeorder(list[int], cabc.Sequence), typeorder(cabc.Sequence, list[int]))
print("type[A] vs type[D]", typeorder(type[A], type[D]), typeorder(type[D], type[A]))
print("type[A] vs object", typeorder(type[A], object), typeorder(object, type[A]))
print("type[A] vs type", typeorder(type[A], type), typeorder(type, type[A]))

# C02 level vs order
class P: pass
class Q(P): pass
@ovld
def f(x: D, y: Q): return "DQ"
@ovld
def f(x: B, y: P): return "BP"
try:
    print("f(E(), Q()) ->", f(E(), Q()))
except TypeError as e:
    print("f(E(),Q()) error:", str(e).splitlines()[0])
