from ovld import ovld, OvldBase, call_next
class T(OvldBase):
    def f(self, x: int): return ["int"] + self.f.next(x)
    def f(self, x: object): return ["obj"]
    def g(self, x: int): return ["int"] + call_next(x)
    def g(self, x: object): return ["obj"]
for name in ("g", "f"):
    try: print(name, getattr(T(), name)(1))
    except Exception as e: print(name, "EXC", type(e).__name__, str(e)[:100])
@ovld
def h(x: int): return ["int"] + h.next(x)
@ovld
def h(x: object): return ["obj"]
print("h", h(1))
