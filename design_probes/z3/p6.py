from z3 import *
import time
H = DeclareSort('H')
F = Function('F', IntSort(), H, BoolSort()); lvl = Function('lvl', IntSort(), H, IntSort())
h = Const('h', H); e, i, j, n = Ints('e i j n')
def prove(name, *fs, to=30000):
    s = Solver(); s.set(timeout=to); s.add(*fs); t = time.time(); r = s.check(); print(f"{name:55s} {r} {time.time()-t:.3f}s"); return r
def Inv(cand, spec, j):
    return And(ForAll([h], cand(h) == ForAll([e], Implies(And(0 <= e, e < j), F(e, h)))),
               ForAll([h, i], Implies(And(cand(h), 0 <= i, i < j), spec(h, i) == lvl(i, h))))
c0 = Function('c0', H, BoolSort()); s0 = Function('s0', H, IntSort(), IntSort())
c1 = Function('c1', H, BoolSort()); s1 = Function('s1', H, IntSort(), IntSort())
# first iteration (candidates is None): cand1 = F(0,.), spec1(h,0)=lvl(0,h)
first = And(ForAll([h], c1(h) == F(0, h)), ForAll([h], Implies(c1(h), s1(h, 0) == lvl(0, h))))
prove("mro position loop: first iteration establishes Inv(1)", first, Not(Inv(c1, s1, IntVal(1))))
# later iteration j>=1: cand' = cand & F(j,.), spec'(h, j) = lvl(j,h) for h in cand', other indices unchanged
step = And(ForAll([h], c1(h) == And(c0(h), F(j, h))),
           ForAll([h, i], s1(h, i) == If(And(c1(h), i == j), lvl(j, h), s0(h, i))))
prove("mro position loop: preservation Inv(j) -> Inv(j+1)", j >= 1, Inv(c0, s0, j), step, Not(Inv(c1, s1, j + 1)))

# ---- first group & completeness (C02/complete) over a sorted duplicate-free candidate sequence -------------
L = Function('L', IntSort(), H); m = Int('m'); pos = Function('pos', H, IntSort()); cand = Function('cand', H, BoolSort())
prio = Function('prio', H, RealSort()); tb = Function('tb', H, IntSort()); S = Function('S', H, IntSort())  # S = sum of levels
spec = Function('spec', H, IntSort(), IntSort())
a, b = Consts('a b', H); p, q = Ints('p q')
seq = [m >= 0, ForAll([p], Implies(And(0 <= p, p < m), And(cand(L(p)), pos(L(p)) == p))),
       ForAll([a], Implies(cand(a), And(0 <= pos(a), pos(a) < m, L(pos(a)) == a)))]
def keygt(a, b): return Or(prio(a) > prio(b), And(prio(a) == prio(b), Or(S(a) > S(b), And(S(a) == S(b), tb(a) > tb(b)))))
def keyge(a, b): return Not(keygt(b, a))
sorted_desc = ForAll([p, q], Implies(And(0 <= p, p < q, q < m), keyge(L(p), L(q))))
def differs(a, b): return Exists([i], And(0 <= i, i < n, spec(a, i) != spec(b, i)))
def pw(a, b): return ForAll([i], Implies(And(0 <= i, i < n), spec(a, i) >= spec(b, i)))
def dominates(a, b): return If(prio(a) > prio(b), True, If(differs(a, b), pw(a, b), tb(a) > tb(b)))
# sum lemma (proved separately by induction) used as an assumption here:
sumlemma = ForAll([a, b], And(Implies(pw(a, b), S(a) >= S(b)), Implies(And(pw(a, b), differs(a, b)), S(a) > S(b))))
# oracle side, abstracted to what the levels/monotone lemma gives: beats(w,c) => prio(w)>prio(c) or (prio equal and pw(w,c) and (differs or sig-tiebreak clause))
w = Const('w', H)
beats = Function('beats', H, H, BoolSort())
beats_gives = ForAll([a, b], Implies(beats(a, b), Or(prio(a) > prio(b), And(prio(a) == prio(b), pw(a, b), differs(a, b)),
                                                    And(prio(a) == prio(b), Not(differs(a, b)), tb(a) > tb(b)))))
winner = And(cand(w), ForAll([a], Implies(And(cand(a), a != w), beats(w, a))))
goal = And(L(0) == w, ForAll([a], Implies(And(cand(a), a != w), dominates(w, a))))
prove("C02/complete: oracle winner is L[0] and dominates all", n >= 0, *seq, sorted_desc, sumlemma, beats_gives, winner, Not(goal))
