from z3 import *
import time
Order, (LESS, MORE, SAME, NONE) = EnumSort('Order', ['LESS','MORE','SAME','NONE'])
Kind, (KClass, KUnion, KInter) = EnumSort('Kind', ['Class','Union','Inter'])
Ty = DeclareSort('Ty')
kind = Function('kind', Ty, Kind); nargs = Function('nargs', Ty, IntSort()); arg = Function('arg', Ty, IntSort(), Ty)
rank = Function('rank', Ty, IntSort())
TO = Function('TO', Ty, Ty, Order)       # result of real typeorder (uninterpreted; constrained by unfoldings + IH)
sub = Function('sub', Ty, Ty, BoolSort())  # issubclass on plain classes
def opp(o): return If(o == LESS, MORE, If(o == MORE, LESS, o))
t, u, x, y, z = Consts('t u x y z', Ty); i, j = Ints('i j')
base = [ForAll([t], nargs(t) >= 0), ForAll([t], rank(t) >= 0),
        ForAll([t, i], Implies(And(0 <= i, i < nargs(t)), rank(arg(t, i)) < rank(t))),
        ForAll([x], sub(x, x)), ForAll([x, y, z], Implies(And(sub(x, y), sub(y, z)), sub(x, z))),
        ForAll([x, y], Implies(And(sub(x, y), sub(y, x), kind(x) == KClass, kind(y) == KClass), x == y))]
def union_hook(self, other):
    # body of Union.__type_order__ (hand-unfolded here; generated from the AST in the framework)
    nonempty = Exists([i], And(0 <= i, i < nargs(self), TO(arg(self, i), other) != NONE))
    anyms = Exists([i], And(0 <= i, i < nargs(self), Or(TO(arg(self, i), other) == MORE, TO(arg(self, i), other) == SAME)))
    return If(Not(nonempty), NONE, If(anyms, MORE, LESS))
def typeorder_unfold(t1, t2):
    # t1 == t2 -> SAME ; hook of t1, else hook of t2 reflected, else issubclass fallback
    cls = If(And(sub(t1, t2), sub(t2, t1)), SAME, If(sub(t1, t2), LESS, If(sub(t2, t1), MORE, NONE)))
    return If(t1 == t2, SAME,
           If(kind(t1) == KUnion, union_hook(t1, t2),
           If(kind(t2) == KUnion, opp(union_hook(t2, t1)), cls)))
t1, t2 = Consts('t1 t2', Ty)
IH = ForAll([x, y], Implies(rank(x) + rank(y) < rank(t1) + rank(t2), TO(x, y) == opp(TO(y, x))))
def attempt(name, k1, k2):
    s = Solver(); s.set(timeout=15000); s.add(base); s.add(IH)
    s.add(kind(t1) == k1, kind(t2) == k2)
    s.add(TO(t1, t2) == typeorder_unfold(t1, t2), TO(t2, t1) == typeorder_unfold(t2, t1))
    s.add(TO(t1, t2) != opp(TO(t2, t1)))
    t0 = time.time(); r = s.check(); print(name, r, round(time.time()-t0, 3))
    return s, r
attempt("mirror[Class,Class]", KClass, KClass)
attempt("mirror[Union,Class]", KUnion, KClass)
s, r = attempt("mirror[Union,Union]", KUnion, KUnion)
if r == sat:
    m = s.model()
    print(" nargs", m.eval(nargs(t1)), m.eval(nargs(t2)), "TO", m.eval(TO(t1,t2)), m.eval(TO(t2,t1)))
