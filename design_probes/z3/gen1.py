# run under /venv/bin/python: emit the real entry point for a method set and dump its source
import json, linecache, sys
from ovld import Ovld
def m1(x: int, y: int = 7, *, k: int = 3): return 1
def m2(x: str, y: int = 9, *, k: int = 4): return 2
o = Ovld(name="f"); o.register(m1); o.register(m2); o.compile()
src = "".join(linecache.getlines(o.dispatch.__code__.co_filename))
json.dump({"src": src}, sys.stdout)
