# Prototype: find a call where level-based dominance picks a winner but the documented
# partial-order rule says "ambiguous". Finite scope: NT types per position, NH handlers, 2 positions.
from z3 import *
import itertools, time
NT, NH, NP = 3, 2, 2
s = Solver()
T = range(NT)
# per position: strict order lt[p][a][b] on applicable registered types (already filtered by SC)
lt = [[[Bool(f"lt_{p}_{a}_{b}") for b in T] for a in T] for p in range(NP)]
used = [[Bool(f"used_{p}_{a}") for a in T] for p in range(NP)]  # type registered+applicable at position
layer = [[Int(f"layer_{p}_{a}") for a in T] for p in range(NP)]
G = [Int(f"G_{p}") for p in range(NP)]
for p in range(NP):
    for a in T:
        s.add(Not(lt[p][a][a]))
        for b in T:
            s.add(Implies(lt[p][a][b], Not(lt[p][b][a])))
            s.add(Implies(lt[p][a][b], And(used[p][a], used[p][b])))
            for c in T:
                s.add(Implies(And(lt[p][a][b], lt[p][b][c]), lt[p][a][c]))
    # TopologicalSorter layering contract: layer = longest chain of predecessors
    for b in T:
        s.add(Implies(used[p][b], layer[p][b] >= 0))
        for a in T:
            s.add(Implies(lt[p][a][b], layer[p][a] < layer[p][b]))
        s.add(Implies(And(used[p][b], layer[p][b] > 0),
                      Or([And(lt[p][a][b], layer[p][a] == layer[p][b]-1) for a in T])))
        s.add(Implies(used[p][b], layer[p][b] < G[p]))
    s.add(Or([And(used[p][b], layer[p][b] == G[p]-1) for b in T]))
# handlers: type index at each position, priority
ty = [[Int(f"ty_{h}_{p}") for p in range(NP)] for h in range(NH)]
prio = [Int(f"prio_{h}") for h in range(NH)]
def sel(arr, idx): # arr python list of z3 exprs, idx z3 Int
    e = arr[-1]
    for i in range(len(arr)-2, -1, -1):
        e = If(idx == i, arr[i], e)
    return e
for h in range(NH):
    for p in range(NP):
        s.add(ty[h][p] >= 0, ty[h][p] < NT)
        s.add(sel(used[p], ty[h][p]))
lvl = [[G[p]-1 - sel(layer[p], ty[h][p]) for p in range(NP)] for h in range(NH)]
def LT(p, a, b):  # symbolic indices
    return Or([And(a == i, b == j, lt[p][i][j]) for i in T for j in T])
def dominates(h1, h2):
    spec_ne = Or([lvl[h1][p] != lvl[h2][p] for p in range(NP)])
    return If(prio[h1] > prio[h2], True,
              If(spec_ne, And([lvl[h1][p] >= lvl[h2][p] for p in range(NP)]), False))  # tiebreaks equal (0)
def beats(h1, h2):
    pointwise = And([Or(ty[h1][p] == ty[h2][p], LT(p, ty[h1][p], ty[h2][p])) for p in range(NP)])
    differ = Or([ty[h1][p] != ty[h2][p] for p in range(NP)])
    return Or(prio[h1] > prio[h2], And(prio[h1] == prio[h2], pointwise, differ))
# impl: h0 is first in sort order and dominates all others -> impl winner h0
def key_ge(h1, h2):
    s1 = Sum(lvl[h1]); s2 = Sum(lvl[h2])
    return Or(prio[h1] > prio[h2], And(prio[h1] == prio[h2], s1 >= s2))
s.add(And([key_ge(0, h) for h in range(1, NH)]))
s.add(And([dominates(0, h) for h in range(1, NH)]))
s.add(Not(And([beats(0, h) for h in range(1, NH)])))
t0 = time.time(); r = s.check(); print(r, time.time()-t0)
if r == sat:
    m = s.model()
    for p in range(NP):
        print("pos", p, "used", [m.eval(used[p][a]) for a in T], "layer", [m.eval(layer[p][a]) for a in T],
              "lt", [(a,b) for a in T for b in T if is_true(m.eval(lt[p][a][b]))], "G", m.eval(G[p]))
    for h in range(NH):
        print("h", h, "types", [m.eval(ty[h][p]) for p in range(NP)], "prio", m.eval(prio[h]), "lvl", [m.eval(lvl[h][p]) for p in range(NP)])
# single position: must be unsat
