# Hand-written VCs for sort_types' nested loop (what pyvc would generate in invariant mode).
from z3 import *
import time
Ty = DeclareSort('Ty'); Order, (LESS, MORE, SAME, NONE) = EnumSort('Order', ['LESS','MORE','SAME','NONE'])
TO = Function('TO', Ty, Ty, Order)
A = Function('A', IntSort(), Ty); n = Int('n'); pos = Function('pos', Ty, IntSort()); mem = Function('mem', Ty, BoolSort())
x, y = Consts('x y', Ty); p = Int('p')
seq_ax = [n >= 0, ForAll([p], Implies(And(0 <= p, p < n), And(mem(A(p)), pos(A(p)) == p))),
          ForAll([x], Implies(mem(x), And(0 <= pos(x), pos(x) < n, A(pos(x)) == x)))]
def Inv(deps, i, j):
    # deps: Function Ty,Ty->Bool  (y in deps[x]);  outer index i, inner scanned q in (i, j)
    # pairs (a=A[p], b=A[q]) with p<i, q>p   OR  p==i, i<q<j   have been processed
    def processed(a, b):  # a at smaller index
        return And(mem(a), mem(b), pos(a) < pos(b), Or(pos(a) < i, And(pos(a) == i, pos(b) < j)))
    return ForAll([x, y], Implies(And(mem(x), mem(y)),
        deps(x, y) == Or(And(processed(y, x), TO(y, x) == LESS), And(processed(x, y), TO(x, y) == MORE))))
def prove(name, *fs):
    s = Solver(); s.set(timeout=30000); s.add(seq_ax); s.add(*fs)
    t = time.time(); r = s.check(); print(f"{name:40s} {r} {time.time()-t:.3f}s"); return r
D0 = Function('D0', Ty, Ty, BoolSort()); D1 = Function('D1', Ty, Ty, BoolSort())
i, j = Ints('i j')
# init: deps all empty, i=0, j=anything  -> Inv(0, 0)
prove("init", ForAll([x, y], Not(D0(x, y))), Not(Inv(D0, IntVal(0), IntVal(0))))
# inner step: at (i, j) with i<n, i<j<n: t1=A[i], t2=A[j]; update; Inv(i, j+1)
t1, t2 = A(i), A(j)
upd = ForAll([x, y], D1(x, y) == If(And(TO(t1, t2) == LESS, x == t2, y == t1), True,
                                 If(And(TO(t1, t2) == MORE, x == t1, y == t2), True, D0(x, y))))
prove("inner preservation", 0 <= i, i < n, i < j, j < n, Inv(D0, i, j), upd, Not(Inv(D1, i, j + 1)))
# inner exit -> outer step: Inv(i, n) (j reached n) implies Inv(i+1, i+2) [inner loop of next outer starts at i+2]
prove("outer preservation", 0 <= i, i < n, Inv(D0, i, n), Not(Inv(D0, i + 1, i + 2)))
# inner entry: Inv(i, i+1) is the outer invariant form at start of inner loop (nothing with p==i processed)
# post: at i == n, under mirror symmetry on members, deps[x] = {y | TO(y,x)=LESS}
mirror = ForAll([x, y], Implies(And(mem(x), mem(y)), And(Implies(TO(x, y) == MORE, TO(y, x) == LESS), Implies(TO(x, y) == LESS, TO(y, x) == MORE))))
refl = ForAll([x], TO(x, x) == SAME)
post = ForAll([x, y], Implies(And(mem(x), mem(y)), D0(x, y) == (TO(y, x) == LESS)))
prove("post (order-free deps) under mirror", Inv(D0, n, n + 1), mirror, refl, Not(post))
prove("post WITHOUT mirror (expect not proved)", Inv(D0, n, n + 1), refl, Not(post))
