# Throw-away feasibility probe: read the REAL source of Candidate.dominates / Order.merge, walk the AST, emit z3.
import ast, inspect, z3, time, pathlib
src = pathlib.Path("/repo/src/ovld/typemap.py").read_text()
mod = ast.parse(src)
cls = next(n for n in mod.body if isinstance(n, ast.ClassDef) and n.name == "Candidate")
fn = next(n for n in cls.body if isinstance(n, ast.FunctionDef) and n.name == "dominates")
print(ast.unparse(fn))
# value model: Candidate = (priority: Real, spec: Int->Int with common length n, tiebreak: Int)
class Cand:
    def __init__(s, nm):
        s.priority = z3.Real(nm+"_prio"); s.tiebreak = z3.Int(nm+"_tb"); s.specificity = ("tuple", z3.Function(nm+"_spec", z3.IntSort(), z3.IntSort()))
n = z3.Int("n")
def ev(e, env):
    if isinstance(e, ast.Attribute): return getattr(ev(e.value, env), e.attr)
    if isinstance(e, ast.Name): return env[e.id]
    if isinstance(e, ast.Constant): return z3.BoolVal(e.value) if isinstance(e.value, bool) else e.value
    if isinstance(e, ast.Compare):
        l = ev(e.left, env); r = ev(e.comparators[0], env); op = e.ops[0]
        if isinstance(l, tuple) and l[0] == "tuple":   # tuple (in)equality of equal-length tuples -> quantified
            i = z3.FreshInt("i"); eq = z3.ForAll([i], z3.Implies(z3.And(0 <= i, i < n), l[1](i) == r[1](i)))
            return z3.Not(eq) if isinstance(op, ast.NotEq) else eq
        return {ast.Gt: lambda: l > r, ast.GtE: lambda: l >= r, ast.NotEq: lambda: l != r}[type(op)]()
    if isinstance(e, ast.Call) and isinstance(e.func, ast.Name) and e.func.id == "all":
        g = e.args[0]; comp = g.generators[0]            # all(<elt> for a, b in zip(X, Y))
        assert isinstance(comp.iter, ast.Call) and comp.iter.func.id == "zip"
        xs = [ev(a, env) for a in comp.iter.args]; i = z3.FreshInt("i")
        env2 = dict(env); 
        for tgt, x in zip(comp.target.elts, xs): env2[tgt.id] = x[1](i)
        return z3.ForAll([i], z3.Implies(z3.And(0 <= i, i < n), ev(g.elt, env2)))
    raise NotImplementedError(ast.dump(e))
def run(stmts, env):   # returns z3 expr for the returned value
    st = stmts[0]
    if isinstance(st, ast.Return): return ev(st.value, env)
    if isinstance(st, ast.If):
        c = ev(st.test, env); return z3.If(c, run(st.body, env), run(st.orelse, env))
    raise NotImplementedError
a, b = Cand("a"), Cand("b")
dom_ab = run(fn.body, {"self": a, "other": b})
# contract (taken from the property, over levels): under prio(a) >= prio(b):
i = z3.Int("i")
pw = z3.ForAll([i], z3.Implies(z3.And(0 <= i, i < n), a.specificity[1](i) >= b.specificity[1](i)))
ne = z3.Exists([i], z3.And(0 <= i, i < n, a.specificity[1](i) != b.specificity[1](i)))
spec = z3.Or(a.priority > b.priority, z3.And(a.priority == b.priority, z3.Or(z3.And(ne, pw), z3.And(z3.Not(ne), a.tiebreak > b.tiebreak))))
s = z3.Solver(); s.add(n >= 0, a.priority >= b.priority, dom_ab != spec)
t = time.time(); print("dominates == level-spec under prio(a)>=prio(b):", s.check(), round(time.time()-t, 3))
s = z3.Solver(); s.add(n >= 0, dom_ab != spec)
t = time.time(); r = s.check(); print("without the precondition:", r, round(time.time()-t, 3))
if r == z3.sat: m = s.model(); print("  cex prio:", m.eval(a.priority), m.eval(b.priority), "n", m.eval(n))
