from z3 import *
import time
# (1) sum lemma by induction over tuple length n: (forall i<n: a[i]>=b[i]) => S(a,n) >= S(b,n)  and  (exists strict) => >
A = Function('A', IntSort(), IntSort()); B = Function('B', IntSort(), IntSort())
SA = Function('SA', IntSort(), IntSort()); SB = Function('SB', IntSort(), IntSort())
n = Int('n'); i = Int('i')
defs = [SA(0) == 0, SB(0) == 0,
        ForAll([i], Implies(i >= 0, SA(i+1) == SA(i) + A(i))),
        ForAll([i], Implies(i >= 0, SB(i+1) == SB(i) + B(i)))]
def P(n):
    pw = ForAll([i], Implies(And(0 <= i, i < n), A(i) >= B(i)))
    strict = Exists([i], And(0 <= i, i < n, A(i) > B(i)))
    return And(Implies(pw, SA(n) >= SB(n)), Implies(And(pw, strict), SA(n) > SB(n)))
s = Solver(); s.set(timeout=20000); s.add(defs)
s.push(); s.add(Not(P(0))); t=time.time(); print("base", s.check(), time.time()-t); s.pop()
s.push(); s.add(n >= 0, P(n), Not(P(n+1))); t=time.time(); print("step", s.check(), time.time()-t); s.pop()

# (2) single-position: unique layer-0 element is below everything (strong induction on layer)
Ty = DeclareSort('Ty')
lt = Function('lt', Ty, Ty, BoolSort()); used = Function('used', Ty, BoolSort()); layer = Function('layer', Ty, IntSort())
pred = Function('pred', Ty, Ty)  # skolem for the topological-sorter contract
a,b,c = Consts('a b c', Ty); c1 = Const('c1', Ty)
ax = [ForAll([a,b,c], Implies(And(lt(a,b), lt(b,c)), lt(a,c))),
      ForAll([a,b], Implies(lt(a,b), And(used(a), used(b), layer(a) < layer(b)))),
      ForAll([b], Implies(used(b), layer(b) >= 0)),
      ForAll([b], Implies(And(used(b), layer(b) > 0), And(used(pred(b)), lt(pred(b), b), layer(pred(b)) == layer(b)-1))),
      used(c1), layer(c1) == 0, ForAll([a], Implies(And(used(a), a != c1), layer(a) > 0))]
k = Int('k'); x = Const('x', Ty)
IH = ForAll([a], Implies(And(used(a), a != c1, layer(a) < k), lt(c1, a)))
s = Solver(); s.set(timeout=20000); s.add(ax); s.add(IH, used(x), x != c1, layer(x) == k, Not(lt(c1, x)))
t=time.time(); print("single-position step", s.check(), time.time()-t)
