# Fuller hand-unfolding of typeorder + hooks over a kind model; mirror symmetry per kind pair (unbounded, induction on rank).
from z3 import *
import time, itertools
Order, (LESS, MORE, SAME, NONE) = EnumSort('Order', ['LESS','MORE','SAME','NONE'])
KN = ['Class','Alias','Union','Inter','Exactly','BoolCk','Dep','Product']
Kind, KS = EnumSort('Kind', KN); K = dict(zip(KN, KS))
Ty = DeclareSort('Ty')
kind = Function('kind', Ty, Kind); nargs = Function('nargs', Ty, IntSort()); arg = Function('arg', Ty, IntSort(), Ty)
origin = Function('origin', Ty, Ty); base = Function('base', Ty, Ty); bound = Function('bound', Ty, Ty)
rank = Function('rank', Ty, IntSort()); sub = Function('sub', Ty, Ty, BoolSort())
TO = Function('TO', Ty, Ty, Order); SC = Function('SC', Ty, Ty, BoolSort()); depless = Function('depless', Ty, Ty, BoolSort())
def opp(o): return If(o == LESS, MORE, If(o == MORE, LESS, o))
t, x, y, z = Consts('t x y z', Ty); i = Int('i')
isK = lambda v, *ks: Or([kind(v) == K[k] for k in ks])
axioms = [ForAll([t], And(nargs(t) >= 0, rank(t) >= 0)),
  ForAll([t, i], Implies(And(0 <= i, i < nargs(t)), rank(arg(t, i)) < rank(t))),
  ForAll([t], Implies(kind(t) == K['Alias'], And(rank(origin(t)) < rank(t), kind(origin(t)) == K['Class']))),
  ForAll([t], Implies(kind(t) == K['Exactly'], rank(base(t)) < rank(t))),
  ForAll([t], Implies(isK(t, 'Dep', 'Product'), rank(bound(t)) < rank(t))),
  ForAll([x], Implies(kind(x) == K['Class'], sub(x, x))), ForAll([x, y, z], Implies(And(sub(x, y), sub(y, z)), sub(x, z))),
  ForAll([x, y], Implies(And(sub(x, y), sub(y, x)), x == y)),
  ForAll([x, y], Implies(sub(x, y), And(kind(x) == K['Class'], kind(y) == K['Class']))),   # only plain classes subclass plain classes...
]
# issubclass(a, b) as routed by the object model: plain classes -> sub ; MetaMC kinds route to their handler (abstracted: uninterpreted per pair) ;
# DependentType instances are base-less classes
issub_meta = Function('issub_meta', Ty, Ty, BoolSort())
topobj = Const('object_', Ty)
axioms += [kind(topobj) == K['Class'], ForAll([x], Implies(kind(x) == K['Class'], sub(x, topobj)))]
def issubclass(a, b):
    return If(kind(b) == K['Class'], If(kind(a) == K['Class'], sub(a, b), b == topobj),
           If(isK(b, 'Union', 'Inter', 'Exactly', 'BoolCk'), issub_meta(a, b), a == b))
def exists_arg(s, pred): return Exists([i], And(0 <= i, i < nargs(s), pred(arg(s, i))))
def union_hook(s, o):
    ne = exists_arg(s, lambda a: TO(a, o) != NONE); ms = exists_arg(s, lambda a: Or(TO(a, o) == MORE, TO(a, o) == SAME))
    return If(Not(ne), NONE, If(ms, MORE, LESS))
def inter_hook(s, o):
    ne = exists_arg(s, lambda a: TO(a, o) != NONE); ls = exists_arg(s, lambda a: Or(TO(a, o) == LESS, TO(a, o) == SAME))
    return If(Not(ne), NONE, If(ls, LESS, MORE))
def exactly_hook(s, o): return If(o == base(s), LESS, TO(base(s), o))
def dep_hook(s, o):
    inner = TO(bound(s), bound(o))
    return If(isK(o, 'Dep', 'Product'),
              If(inner == SAME, If(depless(s, o), LESS, If(depless(o, s), MORE, NONE)), inner),
              If(Or(SC(o, bound(s)), SC(bound(s), o)), LESS, NONE))
# Product overrides: Product vs Product -> merge of args (abstracted as uninterpreted PM with mirror property from Order.merge lemma); else NotImplemented
PM = Function('PM', Ty, Ty, Order)
HAS = lambda v: isK(v, 'Union', 'Inter', 'Exactly', 'BoolCk', 'Dep', 'Product')
NI = lambda s, o: Or(kind(s) == K['BoolCk'], And(kind(s) == K['Product'], kind(o) != K['Product']))   # hook returns NotImplemented
def hook(s, o):
    return If(kind(s) == K['Union'], union_hook(s, o), If(kind(s) == K['Inter'], inter_hook(s, o),
           If(kind(s) == K['Exactly'], exactly_hook(s, o), If(kind(s) == K['Dep'], dep_hook(s, o), PM(s, o)))))
AM = Function('AM', Ty, Ty, Order)  # argument-wise merge for aliases with equal origins (mirror property assumed from merge lemma + IH)
def generic(t1, t2):
    a1, a2 = kind(t1) == K['Alias'], kind(t2) == K['Alias']
    o1o = TO(origin(t1), t2); oo = TO(origin(t1), origin(t2))
    cls = If(And(issubclass(t1, t2), issubclass(t2, t1)), SAME, If(issubclass(t1, t2), LESS, If(issubclass(t2, t1), MORE, NONE)))
    return If(And(a2, Not(a1)), opp(TO(t2, t1)),
           If(a1, If(Not(a2), If(o1o == SAME, LESS, o1o), If(oo != SAME, oo, AM(t1, t2))), cls))
def unfold(t1, t2):
    return If(t1 == t2, SAME,
           If(And(HAS(t1), Not(NI(t1, t2))), hook(t1, t2),
           If(And(HAS(t2), Not(NI(t2, t1))), opp(hook(t2, t1)), generic(t1, t2))))
t1, t2 = Consts('t1 t2', Ty)
IH = ForAll([x, y], Implies(rank(x) + rank(y) < rank(t1) + rank(t2), TO(x, y) == opp(TO(y, x))))
helper = [ForAll([x, y], AM(x, y) == opp(AM(y, x))), ForAll([x, y], PM(x, y) == opp(PM(y, x))),
          ForAll([x, y], Not(And(depless(x, y), depless(y, x))))]
res = {}
for k1, k2 in itertools.combinations_with_replacement(KN, 2):
    s = Solver(); s.set(timeout=6000); s.add(axioms); s.add(helper); s.add(IH)
    s.add(kind(t1) == K[k1], kind(t2) == K[k2])
    # the swapped call for "o2 and not o1" needs one more unfolding: define TO(t2,t1) by unfold too
    s.add(TO(t1, t2) == unfold(t1, t2), TO(t2, t1) == unfold(t2, t1))
    cover = s.check()            # premises must be satisfiable (vacuity guard)
    s.add(TO(t1, t2) != opp(TO(t2, t1)))
    t0 = time.time(); r = s.check(); res[(k1, k2)] = (str(r), round(time.time() - t0, 2), 'cover=' + str(cover))
proved = [k for k, v in res.items() if v[0] == 'unsat']
print("proved (unsat):", len(proved)); print("  ", proved)
print("not proved:")
for k, v in res.items():
    if v[0] != 'unsat': print("  ", k, v)
