# run under python3-vt: path-splitting symbolic execution of the REAL emitted __DISPATCH__ ; opaque argument values
import ast, json, itertools
src = json.load(open("gen1.json"))["src"]
fn = ast.parse(src).body[0].body[0]           # __WRAP_DISPATCH__ -> __DISPATCH__
assert fn.name == "__DISPATCH__"
class Sym:                                     # opaque value
    def __init__(s, n): s.n = n
    def __repr__(s): return s.n
MISSING = Sym("MISSING")
params = [a.arg for a in fn.args.posonlyargs + fn.args.args] + [a.arg for a in fn.args.kwonlyargs]
npos = len(fn.args.posonlyargs + fn.args.args); defaults = len(fn.args.defaults)
optional = set(params[npos-defaults:npos]) | {a.arg for a, d in zip(fn.args.kwonlyargs, fn.args.kw_defaults) if d is not None}
def ev(e, env):
    if isinstance(e, ast.Name): return env[e.id]
    if isinstance(e, ast.Constant): return e.value
    if isinstance(e, ast.Dict): return {}
    if isinstance(e, ast.List): return []
    if isinstance(e, ast.Tuple):
        out = []
        for x in e.elts:
            if isinstance(x, ast.Starred): out.extend(ev(x.value, env))
            else: out.append(ev(x, env))
        return tuple(out)
    if isinstance(e, ast.Compare):
        l, r = ev(e.left, env), ev(e.comparators[0], env)
        return (l is r) if isinstance(e.ops[0], ast.Is) else (l is not r)
    if isinstance(e, ast.Subscript): return ("lookup", ev(e.value, env), ev(e.slice, env))
    if isinstance(e, ast.Attribute): return ("attr", ev(e.value, env), e.attr)
    if isinstance(e, ast.Call):
        f = ev(e.func, env)
        args = [ev(a, env) for a in e.args]
        kws = {}
        for k in e.keywords:
            if k.arg is None: kws.update(ev(k.value, env))
            else: kws[k.arg] = ev(k.value, env)
        if f == "type": return ("type", args[0])
        if isinstance(f, tuple) and f[0] == "attr" and f[2] == "append": f[1].append(args[0]); return None
        return ("call", f, tuple(args), kws)
    raise NotImplementedError(ast.dump(e))
def run(stmts, env):
    for st in stmts:
        if isinstance(st, ast.Assign):
            t = st.targets[0]
            if isinstance(t, ast.Name): env[t.id] = ev(st.value, env)
            else: ev(t.value, env)[ev(t.slice, env)] = ev(st.value, env)
        elif isinstance(st, ast.If):
            r = run(st.body if ev(st.test, env) else st.orelse, env)
            if r is not None: return r
        elif isinstance(st, ast.Expr): ev(st.value, env)
        elif isinstance(st, ast.Return): return ev(st.value, env)
        else: raise NotImplementedError(ast.dump(st))
bad = 0
for pattern in itertools.product([True, False], repeat=len(optional)):
    present = dict(zip(sorted(optional), pattern))
    env = {"MISSING": MISSING, "OVLD": Sym("OVLD"), "type": "type"}
    for p in params: env[p] = Sym("v_" + p) if present.get(p, True) else MISSING
    # a positional can only be omitted if all later positionals are omitted (Python binding) 
    pos_present = [env[p] is not MISSING for p in params[:npos]]
    if any(not a and b for a, b in zip(pos_present, pos_present[1:])): continue
    r = run(fn.body, env)
    _, (_, _, key), cargs, ckws = r if r[0] == "call" else (None, (None, None, None), None, None)
    want_pos = tuple(env[p] for p in params[:npos] if env[p] is not MISSING)
    want_kw = {p: env[p] for p in params[npos:] if env[p] is not MISSING}
    want_key = tuple(("type", v) for v in want_pos) + tuple((k, ("type", v)) for k, v in want_kw.items())
    ok = cargs == want_pos and ckws == want_kw and set(key) == set(want_key) and len(key) == len(want_key)
    print("present:", {p: env[p] is not MISSING for p in sorted(optional)}, "OK" if ok else f"VIOLATED key={key} call={cargs} {ckws}")
    bad += not ok
print("violating presence patterns:", bad)
