# C13 probe: real subclasscheck control flow (hand-unfolded) vs the documented Meaning(T), class on the left, induction on rank(T)
from z3 import *
import time
KN = ['Class','Alias','Union','Inter','Exactly','Strict','HasM','Dep']
Kind, KS = EnumSort('Kind', KN); K = dict(zip(KN, KS))
Ty = DeclareSort('Ty')
kind = Function('kind', Ty, Kind); nargs = Function('nargs', Ty, IntSort()); arg = Function('arg', Ty, IntSort(), Ty)
origin = Function('origin', Ty, Ty); base = Function('base', Ty, Ty); bound = Function('bound', Ty, Ty)
rank = Function('rank', Ty, IntSort()); sub = Function('sub', Ty, Ty, BoolSort()); hasm = Function('hasm', Ty, Ty, BoolSort())
SC = Function('SC', Ty, Ty, BoolSort()); Meaning = Function('Meaning', Ty, Ty, BoolSort())   # Meaning(T, c)
t, x, y, z = Consts('t x y z', Ty); i = Int('i')
isK = lambda v, *ks: Or([kind(v) == K[k] for k in ks])
axioms = [ForAll([t], And(nargs(t) >= 0, rank(t) >= 0)),
  ForAll([t, i], Implies(And(0 <= i, i < nargs(t)), rank(arg(t, i)) < rank(t))),
  ForAll([t], Implies(kind(t) == K['Alias'], And(rank(origin(t)) < rank(t), kind(origin(t)) == K['Class']))),
  ForAll([t], Implies(isK(t, 'Exactly', 'Strict'), And(rank(base(t)) < rank(t), kind(base(t)) == K['Class']))),
  ForAll([t], Implies(kind(t) == K['Dep'], rank(bound(t)) < rank(t))),
  ForAll([x], Implies(kind(x) == K['Class'], sub(x, x))), ForAll([x, y, z], Implies(And(sub(x, y), sub(y, z)), sub(x, z))),
  ForAll([x, y], Implies(And(sub(x, y), sub(y, x)), x == y)),
  ForAll([x, y], Implies(sub(x, y), And(kind(x) == K['Class'], kind(y) == K['Class'])))]
c, T = Consts('c T', Ty)
def all_args(s, pred): return ForAll([i], Implies(And(0 <= i, i < nargs(s)), pred(arg(s, i))))
def any_args(s, pred): return Exists([i], And(0 <= i, i < nargs(s), pred(arg(s, i))))
# --- documented meaning (oracle, independent of the code) ---
def meaning_def(T, c):
    return If(kind(T) == K['Class'], sub(c, T),
           If(kind(T) == K['Union'], any_args(T, lambda a: Meaning(a, c)),
           If(kind(T) == K['Inter'], all_args(T, lambda a: Meaning(a, c)),
           If(kind(T) == K['Exactly'], c == base(T),
           If(kind(T) == K['Strict'], And(sub(c, base(T)), c != base(T)),
           If(kind(T) == K['HasM'], hasm(c, T),
           If(kind(T) == K['Dep'], Meaning(bound(T), c),
              False)))))))   # Alias with >=1 argument: a plain class is never a subtype of a parametrised alias
# --- the code: subclasscheck(c, T) with c a plain class ---
def sup_hook(T, o):
    return If(kind(T) == K['Union'], any_args(T, lambda a: SC(o, a)),
           If(kind(T) == K['Inter'], all_args(T, lambda a: SC(o, a)),
           If(kind(T) == K['Exactly'], o == base(T),                                   # TypeRelationship.supertype = cls is base_cls
           If(kind(T) == K['Strict'], And(kind(o) == K['Class'], sub(o, base(T)), o != base(T)),   # isinstance(cls,type) and issubclass and is not
           If(kind(T) == K['HasM'], hasm(o, T),
              If(kind(o) == K['Dep'], False, SC(o, bound(T))))))))                     # DependentType.__is_supertype__
def sc_unfold(c, T):
    has_sup = isK(T, 'Union', 'Inter', 'Exactly', 'Strict', 'HasM', 'Dep')
    generic = If(kind(T) == K['Alias'],
                 If(sub(c, origin(T)), nargs(T) == 0, False),       # o1 = c; issubclass(c, o2); o2 is not t2; len(()) != len(args2) unless 0 -> all([]) = True
                 sub(c, T))                                         # plain issubclass
    return If(c == T, True, If(has_sup, sup_hook(T, c), generic))
IH = ForAll([x, y], Implies(And(rank(y) < rank(T), kind(x) == K['Class']), SC(x, y) == Meaning(y, x)))
for k in KN:
    s = Solver(); s.set(timeout=10000); s.add(axioms); s.add(IH)
    s.add(kind(c) == K['Class'], kind(T) == K[k])
    if k == 'Alias': s.add(nargs(T) >= 1)
    s.add(SC(c, T) == sc_unfold(c, T), Meaning(T, c) == meaning_def(T, c))
    cover = s.check()
    s.add(SC(c, T) != Meaning(T, c))
    t0 = time.time(); r = s.check(); print(f"subclasscheck/meaning[{k:8s}] {str(r):8s} {time.time()-t0:.3f}s cover={cover}")
